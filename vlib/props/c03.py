"""C03 — every written object is framed exactly as its own header declares."""
from .. import common, codec, codecrun, coqrun
from .c01 import TRUSTED, class_verdicts

KNOWN_IRREGULAR = ()


def header_bytes(meta, name):
    """bytes of the header part: members of ObjectHeaderBase and of the ObjectHeader/ObjectHeader2/VarObjectHeader base."""
    W = codec.W
    tot = 0
    seen = []

    def walk(n):
        c = meta['classes'][n]
        for b in c['bases']:
            walk(b)
        if n in ('ObjectHeaderBase', 'ObjectHeader', 'ObjectHeader2', 'VarObjectHeader'):
            seen.append(n)
    walk(name)
    for n in seen:
        for f in meta['classes'][n]['fields']:
            if f['kind'][0] == 'scalar':
                tot += W[f['kind'][1]]
    return tot


def frame_oracle(v, meta, res):
    fid = {f['name']: f['id'] for f in meta['classes']['ObjectHeaderBase']['fields']}
    failing = {}
    checked = 0
    views = {}
    for c in res['cases']:
        cls = c['cls']
        if not meta['classes'][cls].get('isobj') or cls == 'LogContainer':
            continue
        if c['kind'] == 'W' and c['impl'].startswith('W ok '):
            cv = views.setdefault(cls, codec.ClassView(meta, cls))
            b = bytes.fromhex(c['impl'].split(' ')[2])
            d = codec.parse_dump(c['impl'])
            checked += 1
            osz, hsz = int(d[fid['objectSize']]), int(d[fid['headerSize']])
            pad = len(b) - osz
            why = None
            if len(b) < 16 or int.from_bytes(b[8:12], 'little') != osz or int.from_bytes(b[4:6], 'little') != hsz:
                why = ('fields', 'header fields inside the bytes differ from the members after write()')
            elif hsz != header_bytes(meta, cls):
                why = ('headersize', 'headerSize %d but %d header bytes are emitted' % (hsz, header_bytes(meta, cls)))
            elif pad < 0 or pad > 3 or pad != (osz % 4 if cv.pads else 0):
                why = ('objectsize', 'objectSize %d, %d bytes emitted, padding rule %s' % (osz, len(b), 'objectSize%4' if cv.pads else 'none'))
            elif any(b[osz:]):
                why = ('padzero', 'padding bytes are not zero')
            else:
                for lf, t, cf, k in cv.derivs:
                    if lf not in d or cf not in d or (c.get('emitted') is not None and cf not in c['emitted']):
                        continue    # container outside the selected layout variant
                    kind = [kd for f_, kd, _, _ in cv.fields if f_ == cf][0]
                    elems = (len(d[cf]) - 1) // 2 // kind[1]
                    if int(d[lf]) != elems * k and c['mode'] != 'stale-unrepresentable':
                        mx = (1 << (8 * codec.W[t])) - 1
                        if elems * k <= mx:
                            why = ('length', 'length member %d holds %s but %d payload units are emitted' % (lf, d[lf], elems * k))
            if why:
                failing.setdefault((cls, why[0]), (c, why[1]))
        if c['kind'] == 'R' and c['mode'] in ('exact', 'junk') and c['of']['mode'] in ('api', 'default') and c['impl'].startswith('R ok') and c['of']['impl'].startswith('W ok '):
            pos = int(c['impl'].split(' ')[2].split('=')[1])
            if pos != c['nbytes']:
                failing.setdefault((cls, 'consumed'), (c['of'], 'decoding consumes %d of the %d bytes emitted' % (pos, c['nbytes'])))
    for (cls, code), (c, why) in failing.items():
        v.violation('frame:%s:%s' % (cls, code), '%s: %s' % (cls, why),
                    {'class': cls, 'write_case': c['line'][:2000], 'implementation_output': c['impl'][:1200]})
    return checked, failing


def run(v, tier, seed, replay=None):
    meta, _ = common.translate()
    ok, failed, info = coqrun.prove(v, 'C03', ['Inst/Codec.v'])
    mexe = common.build_model_driver()
    verd = class_verdicts(mexe)
    name_of = {c['idx']: n for n, c in meta['classes'].items()}
    broken = [name_of[c] for c, d in verd.items() if not d['rt'] and not d['rtx']]
    res = codecrun.run(meta, seed, tier, focus=broken)
    ndis = codecrun.report_disagreements(v, res, 'C03')
    checked, failing = frame_oracle(v, meta, res)
    for n in broken:
        if not any(k[0] == n for k in failing):
            v.violation('coq:rt_ok:%s' % n, 'class %s no longer passes the pairing check behind C03_consumes / C03_lengths / C03_encoder_in_bounds' % n,
                        {'theorem': 'Inst.Codec.rt_all_b', 'class': n}, no_input=True)
    if not ok and not broken and not v.violations:
        for fl in failed:
            v.violation('coq:' + fl['lemma'], 'proof obligation %s (%s:%d) no longer checks: %s' % (fl['lemma'], fl['file'], fl['line'], fl['error'][:200]),
                        {'theorem': fl['lemma'], 'file': fl['file'], 'line': fl['line'], 'error': fl['error']}, no_input=True)
    cov = codecrun.coverage_common(res)
    cov.update({
        'obligations': info['obligations'], 'discharged': info['discharged'], 'checker_cmd': info['checker_cmd'],
        'trusted_base': TRUSTED + info['print_assumptions'], 'failed_obligations': info['failed'],
        'classes_in_theorems': sum(1 for d in verd.values() if d['rt'] and not d['rtx']),
        'classes_excepted': sorted(name_of[c] for c, d in verd.items() if d['rtx']),
        'encodings_checked_on_impl': checked, 'correspondence_disagreements': ndis,
        'theorems': ['C03_consumes', 'C03_lengths', 'C03_encoder_in_bounds'],
        'not_a_theorem_yet': 'objectSize/headerSize = bytes emitted - padding (C03_object_size_partial): decided by correspondence + oracle',
    })
    v.coverage.update(cov)
    v.assumptions += ['partial: the objectSize/headerSize/padding clauses are checked on every generated state of every class on model and implementation, not proved']
    return 'proof'
