"""C13 — every object is released exactly once and sessions shut down cleanly."""
import itertools, random
from .. import common, codec, coqrun, sessrun
from .c06 import TRUSTED


def reference(ops):
    """is_open/good/eof after every call, from the comments in File.h: a File is open after a successful open until
    close(); open on an open File is ignored; a failed open leaves it closed; good/eof mirror the last read()."""
    is_open, mode, rd, left = False, None, '10', 0
    opened_once = False         # the property speaks of sessions with ONE successful open
    out = []
    for op in ops:
        tag = op
        if op in ('om', 'ou'):
            pass
        elif op == 'ob':
            if not is_open:
                tag = 'ob!'
        elif op == 'oi':
            if not is_open:
                if opened_once:
                    return None
                is_open, mode, left, opened_once = True, 'in', 3, True
        elif op == 'oo':
            if not is_open:
                if opened_once:
                    return None
                is_open, mode, opened_once = True, 'out', True
        elif op == 'r':
            if is_open and mode == 'in':
                if left > 0:
                    left -= 1
                    rd = '10'
                    out.append('+obj')
                else:
                    rd = '01'
                    out.append('+null')
            elif is_open:
                return None         # read() on a file opened for writing: not a session the property describes
            else:
                out.append('+skip')
        elif op == 'w':
            if is_open and mode == 'out':
                pass
            elif is_open:
                return None
            else:
                out.append('+skip')
        elif op == 'c':
            if is_open and mode == 'out':
                rd = '01'           # the write queue reported its end to the worker
            is_open = False
        out.append('%s:%s%s' % (tag, '1' if is_open else '0', rd))
    return out


def run(v, tier, seed, replay=None):
    meta, _ = common.translate()
    ok, failed, info = coqrun.prove(v, 'C13', ['Inst/SkelEq.v', 'Inst/QueueEq.v'])
    mexe = common.build_model_driver()
    plain, sched = sessrun.harnesses()
    rng = random.Random(seed)
    alpha = ['om', 'ou', 'ob', 'oi', 'oo', 'r', 'w', 'c']
    hist = []
    depth = 4 if tier == 'quick' else 5
    for n in range(1, depth + 1):
        for t in itertools.product(alpha, repeat=n):
            if reference(t) is not None:
                hist.append(t)
    if len(hist) > (700 if tier == 'quick' else 6000):
        hist = rng.sample(hist, 700 if tier == 'quick' else 6000)
    for _ in range(100 if tier == 'quick' else 1000):
        t = tuple(rng.choice(alpha + ['r', 'r', 'c']) for _ in range(rng.randrange(5, 13)))
        if reference(t) is not None:
            hist.append(t)
    lines = ['FH ' + ' '.join(t) for t in hist]
    outs = sessrun.run_impl(plain, lines)
    nbad = 0
    for t, o in zip(hist, outs):
        if o == 'SKIPPED':
            continue
        want = reference(t)
        if not o.startswith('FH'):
            nbad += 1
            v.violation('C13:history:%s' % o.split(' ')[0], 'API history [%s]: %s' % (' '.join(t), o[:100]), {'history': ' '.join(t), 'implementation': o[:300]})
            continue
        toks = o.split()[1:]
        leaked = int(toks[-1].split('=')[1])
        got = toks[:-1]
        if got != want:
            nbad += 1
            k = next((i for i in range(min(len(got), len(want))) if got[i] != want[i]), min(len(got), len(want)))
            v.violation('C13:flags', 'API history [%s]: is_open/good/eof after call %d is %s, documented %s' % (' '.join(t), k + 1, got[k] if k < len(got) else '-', want[k] if k < len(want) else '-'),
                        {'history': ' '.join(t), 'implementation': o[:400], 'reference': ' '.join(want)})
        elif leaked != 0:
            nbad += 1
            v.violation('C13:leak', 'API history [%s]: %d allocations made by the session were never released' % (' '.join(t), leaked), {'history': ' '.join(t), 'implementation': o[:400]})
    # sessions closed / destroyed with data still queued or workers blocked (shared with C06), on both builds
    cases = sessrun.early_close_cases(mexe, rng, tier)
    for name, exe, sd in (('plain', plain, 0), ('sched', sched, seed + 3)):
        eo = sessrun.run_impl(exe, [c['line'] for c in cases], sd)
        for c, o in zip(cases, eo):
            if o == 'SKIPPED':
                continue
            r = sessrun.check_early(c, o)
            if r:
                nbad += 1
                v.violation('C13:early:%s' % r[0], r[1] + ' [%s]' % name, {'scenario': 'FE %d .. %d on %d objects in %d-byte containers' % (c['reads'], c['mode'], c['nobj'], c['cs']), 'implementation': o[:300]})
    if not ok and not v.violations:
        for fl in failed:
            v.violation('coq:' + fl['lemma'], 'proof obligation %s (%s:%d) no longer checks: %s' % (fl['lemma'], fl['file'], fl['line'], fl['error'][:200]),
                        {'theorem': fl['lemma'], 'file': fl['file'], 'line': fl['line'], 'error': fl['error'],
                         'searched': '%d API histories and %d early-close sessions with allocation accounting, no leak / double free / wrong flag' % (len(hist), len(cases))}, no_input=True)
    v.coverage.update({
        'obligations': info['obligations'], 'discharged': info['discharged'], 'checker_cmd': info['checker_cmd'],
        'trusted_base': TRUSTED + info['print_assumptions'], 'failed_obligations': info['failed'],
        'evaluations': len(hist) + 2 * len(cases), 'distinct_nontrivial': len(set(hist)) + len(cases),
        'rule': 'API histories over {open(missing), open(unwritable), open(bad signature), open(valid,in), open(out), read, write, close} — all of length <= %d that respect the mode of the open session (sampled when more than the budget) plus random ones of length 5..12 — each on one File that is destroyed at the end: is_open/good/eof after every call against a reference state machine, every allocation made during the history released exactly once (replaced operator new/delete; ASan for double frees). Early-close / destruction sessions with full pipelines as for C06, with the same accounting. Non-trivial = distinct history / scenario.' % depth,
        'failures': nbad, 'samples': [' '.join(t) for t in hist[:2]] + [' '.join(t) for t in hist[-2:]],
        'theorems': ['C13_write_released', 'C13_read_released', 'C13_queue_destructor'],
    })
    return 'proof'
