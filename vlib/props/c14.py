"""C14 — output bytes are a deterministic function of objects and configuration."""
import random
from .. import common, codec, coqrun, filerun, sessrun
from .c06 import TRUSTED


def run(v, tier, seed, replay=None):
    meta, _ = common.translate()
    ok, failed, info = coqrun.prove(v, 'C14', ['Inst/SkelEq.v', 'Inst/FileEq.v', 'Inst/DefEq.v'])
    mexe = common.build_model_driver()
    plain, sched = sessrun.harnesses()
    rng = random.Random(seed)
    g = filerun.Gen(meta, rng)
    pool = ['CanMessage', 'AppText', 'SerialEvent', 'CompactSerialEvent', 'SingleByteSerialEvent', 'LinMessage2', 'EthernetFrame', 'GlobalMarker', 'EventComment', 'CanFdMessage']
    pool = [p for p in pool if p in meta['classes'] and meta['classes'][p].get('isobj')]
    sess = []
    for k in range(8 if tier == 'quick' else 40):
        objs = [g.obj(rng.choice(pool)) for _ in range(rng.randrange(1, 8))]
        sess.append('%d %d %d' % (rng.choice([0, 1, 6, 9]), rng.choice([33, 100, 1000, 0x20000]), rng.choice([0, 1])) + ''.join(' | ' + o for o in objs))
    # an application-constructed object of EVERY class, nothing set (a member without initialiser that is written carries
    # whatever the allocation held), and one with a few members set
    names = sorted(n for n, c in meta['classes'].items() if c.get('isobj') and c.get('concrete') and c.get('has_default_ctor') and n != 'LogContainer')
    for k in range(0, len(names), 30):
        part = names[k:k + 30]
        sess.append('0 131072 0' + ''.join(' | %d' % meta['classes'][n]['idx'] for n in part))
        sess.append('6 4096 0' + ''.join(' | ' + g.obj(n) for n in part))
    model = codec.run_model(mexe, ['FW ' + s for s in sess])
    lines = ['FS 0 ' + s for s in sess]
    # the same sessions: alone, repeated in one process after other activity, on memory pre-filled with different patterns, under perturbed schedules
    variants = [('plain', sessrun.run_impl(plain, lines))]
    shuffled = list(range(len(lines)))
    rng.shuffle(shuffled)
    rep = sessrun.run_impl(plain, [lines[i] for i in shuffled] + lines)
    variants.append(('after other sessions in the same process', rep[len(lines):]))
    for fill in (0x00, 0xff, 0xa5):
        variants.append(('malloc_fill_byte=0x%02x' % fill, sessrun.run_impl(plain, lines, 0, {'ASAN_OPTIONS_EXTRA': '', 'VERIF_FILL': str(fill)})))
    variants.append(('sched', sessrun.run_impl(sched, lines, seed + 11)))
    nbad = 0
    for k, (s, m) in enumerate(zip(sess, model)):
        want = m.split(' ')[-1] if m.startswith('FW ok') else None
        for name, outs in variants:
            o = outs[k]
            if o == 'SKIPPED':
                continue
            got = o.split(' ')[-1] if o.startswith('FS ok') else o
            if got != want:
                nbad += 1
                d = next((i for i in range(0, min(len(got), len(want or '')), 2) if got[i:i + 2] != (want or '')[i:i + 2]), 0) // 2
                v.violation('C14:bytes', 'the same objects and configuration give different file bytes (%s): first difference at byte %d' % (name, d),
                            {'scenario': 'FS 0 ' + s[:400], 'variant': name, 'expected_hex': (want or m)[:3000], 'got': got[:3000]})
                break
    if not ok and not v.violations:
        for fl in failed:
            v.violation('coq:' + fl['lemma'], 'proof obligation %s (%s:%d) no longer checks: %s' % (fl['lemma'], fl['file'], fl['line'], fl['error'][:200]),
                        {'theorem': fl['lemma'], 'file': fl['file'], 'line': fl['line'], 'error': fl['error'],
                         'searched': '%d write sessions x %d variants (repetition in one process, poisoned allocations, perturbed schedules): all byte-identical to the model' % (len(sess), len(variants))}, no_input=True)
    v.coverage.update({
        'obligations': info['obligations'], 'discharged': info['discharged'], 'checker_cmd': info['checker_cmd'],
        'trusted_base': TRUSTED + info['print_assumptions'], 'failed_obligations': info['failed'],
        'evaluations': len(sess) * len(variants), 'distinct_nontrivial': len(sess),
        'rule': 'write sessions over classes with padding, unions and reserved members (serial events, AppText, ...) at several levels / container sizes, plus sessions writing one default-constructed and one API-populated object of every class: each is run alone, again in the same process after other sessions, on allocations pre-filled with 0x00 / 0xff / 0xa5 (ASan malloc_fill_byte), and under seeded schedule perturbation; every file must be byte-identical to the extracted model. Non-trivial = distinct session.',
        'variants': [n for n, _ in variants], 'differences': nbad, 'samples': ['FS 0 ' + s[:100] for s in sess[:3]],
        'theorems': ['C14_schedule_independent', 'C14_payload_config_independent', 'C14_stateless_write_path', 'C14_only_determined_bytes', 'C14_fresh_encodes_real_bytes'],
    })
    return 'proof'
