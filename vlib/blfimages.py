"""blfimages.py — cut object images out of BLF files (stdlib only: struct + zlib)."""
import glob, os, struct, zlib


def objects_of_file(path):
    """Yield (objectType, image bytes) for every object in the uncompressed stream of a BLF file."""
    data = open(path, 'rb').read()
    if len(data) < 144 or data[:4] != b'LOGG':
        return
    hsz = struct.unpack_from('<I', data, 4)[0]
    pos = hsz
    stream = bytearray()
    while pos + 32 <= len(data):
        if data[pos:pos + 4] != b'LOBJ':
            pos += 1
            continue
        hs, hv, osz, oty = struct.unpack_from('<HHII', data, pos + 4)
        if oty != 10 or osz < 32:
            pos += max(osz, 16)
            continue
        method, _, _, usz, _ = struct.unpack_from('<HHIII', data, pos + 16)
        payload = data[pos + 32:pos + osz]
        try:
            stream += zlib.decompress(payload) if method == 2 else payload
        except zlib.error:
            break
        pos += osz + osz % 4
    p = 0
    n = len(stream)
    while p + 16 <= n:
        if stream[p:p + 4] != b'LOBJ':
            p += 1
            continue
        hs, hv, osz, oty = struct.unpack_from('<HHII', stream, p + 4)
        if osz < 16 or p + osz > n:
            break
        yield oty, bytes(stream[p:p + osz]), bytes(stream[p + osz:p + osz + osz % 4])
        p += osz + osz % 4


def reference_images(repo):
    base = os.path.join(repo, 'src/Vector/BLF/tests/unittests')
    out = []
    for d in ('events_from_binlog', 'events_from_converter'):
        for f in sorted(glob.glob(os.path.join(base, d, '*.blf'))):
            for oty, img, pad in objects_of_file(f):
                out.append((os.path.relpath(f, base), oty, img, pad))
    return out
