"""codecrun.py — the codec correspondence run shared by C01 C02 C03 C10 C14, plus the direct
oracles each property applies to the implementation's own output."""
import collections, hashlib, json, os, pickle, random
from . import common, codec


def generate(meta, seed, tier, focus=None):
    """First phase: F / W / S cases for every creatable class.  focus: class names to hammer."""
    rng = random.Random(seed)
    n = 5 if tier == 'quick' else 30
    cases = []      # dicts: line, cls, kind, mode
    for name in meta['creatable']:
        if name == 'RestorePoints':
            continue
        cv = codec.ClassView(meta, name)
        k = n * 6 if focus and name in focus else n
        cases.append({'line': 'F %d' % cv.idx, 'cls': name, 'kind': 'F', 'mode': 'default'})
        for mode, cnt in (('default', 1), ('api', k), ('stale', k)):
            for i in range(cnt):
                sets = codec.gen_object(rng, cv, mode)
                cases.append({'line': ('W %d %s' % (cv.idx, ' '.join(sets))).rstrip(), 'cls': name, 'kind': 'W', 'mode': mode})
                if cv.isobj:
                    cases.append({'line': ('S %d %s' % (cv.idx, ' '.join(sets))).rstrip(), 'cls': name, 'kind': 'S', 'mode': mode})
        # every selector member (apiMajor, flags, length ...) at the boundary values of the constants the code compares it with
        for sf, vals in cv.selectors.items():
            if sf in cv.derived:
                continue
            for val in vals:
                for rep in range(2):
                    base = [x for x in codec.gen_object(rng, cv, 'api') if int(x.split('=')[0]) != sf]
                    base.append('%d=%d' % (sf, val))
                    cases.append({'line': ('W %d %s' % (cv.idx, ' '.join(base))).rstrip(), 'cls': name, 'kind': 'W', 'mode': 'api'})
        # systematic grid over small payload lengths (every residue mod 4, empty payloads) for all containers at once
        vecs = [(fid, kind) for fid, kind, nm, init in cv.fields if kind[0] == 'vec']
        if vecs:
            import itertools
            combos = list(itertools.product(range(4 if len(vecs) > 1 else 6), repeat=len(vecs)))
            if len(combos) > 64:
                combos = rng.sample(combos, 64)
            for combo in combos:
                base = [x for x in codec.gen_object(rng, cv, 'api') if int(x.split('=')[0]) not in [f for f, _ in vecs]]
                for (fid, kind), ne in zip(vecs, combo):
                    base.append('%d=x%s' % (fid, codec.rand_bytes(rng, ne * kind[1]).hex()))
                cases.append({'line': ('W %d %s' % (cv.idx, ' '.join(base))).rstrip(), 'cls': name, 'kind': 'W', 'mode': 'api'})
    return cases, rng


def read_cases(cases, model_out, rng, tier):
    """Second phase: R cases built from the model's encodings."""
    out = []
    nmut = 2 if tier == 'quick' else 8
    for c, m in zip(cases, model_out):
        if c['kind'] != 'W' or not m.startswith('W ok ') or '?' in m.split(' ')[2]:
            continue
        hx = m.split(' ')[2]
        idx = c['line'].split(' ')[1]
        b = bytes.fromhex(hx)
        src = len(out)
        out.append({'line': 'R %s %s' % (idx, hx or '-'), 'cls': c['cls'], 'kind': 'R', 'mode': 'exact', 'of': c, 'nbytes': len(b)})
        out.append({'line': 'R %s %s' % (idx, hx + '4c4f424a00112233'), 'cls': c['cls'], 'kind': 'R', 'mode': 'junk', 'of': c, 'nbytes': len(b)})
        if len(b) > 1:
            for _ in range(nmut):
                k = rng.randrange(0, len(b))
                out.append({'line': 'R %s %s' % (idx, b[:k].hex() or '-'), 'cls': c['cls'], 'kind': 'R', 'mode': 'trunc'})
                bb = bytearray(b)
                k = rng.randrange(0, len(bb))
                bb[k] = rng.choice([0, 1, 0x7f, 0x80, 0xff, rng.getrandbits(8)])
                out.append({'line': 'R %s %s' % (idx, bytes(bb).hex()), 'cls': c['cls'], 'kind': 'R', 'mode': 'byte'})
                if len(b) >= 8:
                    bb = bytearray(b)
                    k = rng.randrange(0, len(bb) // 4) * 4
                    v = rng.choice([0, 1, 0x7fffffff, 0x80000000, 0xffffffff, 0xfffffff0, len(b) + 1, len(b) - 1, len(b) * 2, 0x10000, 7, 9])
                    bb[k:k + 4] = v.to_bytes(4, 'little')
                    out.append({'line': 'R %s %s' % (idx, bytes(bb).hex()), 'cls': c['cls'], 'kind': 'R', 'mode': 'u32'})
                    bb = bytearray(b)
                    k = rng.randrange(0, len(bb) // 2) * 2
                    v = rng.choice([0, 1, 0x7fff, 0x8000, 0xffff, 0xfff0, 9, 0x100])
                    bb[k:k + 2] = v.to_bytes(2, 'little')
                    out.append({'line': 'R %s %s' % (idx, bytes(bb).hex()), 'cls': c['cls'], 'kind': 'R', 'mode': 'u16'})
    # hostile lengths with data behind them: for one encoding per class, every aligned 32-bit and 16-bit position behind the
    # base header is overwritten with lengths above any documented maximum, and filler bytes follow the object so that
    # a decoder that believes the length really copies that much
    ntail = 8192 if tier == 'quick' else 70000
    seen = set()
    for c, m in zip(cases, model_out):
        if c['kind'] != 'W' or c['mode'] != 'api' or not m.startswith('W ok ') or c['cls'] in seen or '?' in m.split(' ')[2]:
            continue
        seen.add(c['cls'])
        idx = c['line'].split(' ')[1]
        b = bytes.fromhex(m.split(' ')[2])
        lim = min(len(b), 16 + (96 if tier == 'quick' else 400))
        for k in range(16, lim - 3, 4):
            for v in ((1536, 0xfff0) if tier == 'quick' else (1536, 0xfff0, 0x10001, 0x7fffffff, 0xffffffff)):
                bb = bytearray(b)
                bb[k:k + 4] = v.to_bytes(4, 'little')
                out.append({'line': 'RT %s %s %d' % (idx, bytes(bb).hex(), ntail), 'cls': c['cls'], 'kind': 'R', 'mode': 'hostile32'})
        for k in range(16, lim - 1, 2):
            for v in ((1536,) if tier == 'quick' else (1536, 0xfff0)):
                bb = bytearray(b)
                bb[k:k + 2] = v.to_bytes(2, 'little')
                out.append({'line': 'RT %s %s %d' % (idx, bytes(bb).hex(), ntail), 'cls': c['cls'], 'kind': 'R', 'mode': 'hostile16'})
    return out


def run(meta, seed, tier, focus=None):
    """Run both sides; cached on (sources, harness, model, seed, tier, focus)."""
    mexe = common.build_model_driver()
    hexe = common.build_harness('codec', extra_flags=['-D_GLIBCXX_SANITIZE_VECTOR'])
    key = hashlib.sha256(('%s|%s|%s|%s|%s|%s' % (
        common.src_hash(), common.file_hash([mexe, __file__, codec.__file__]), common.file_hash([hexe + '.stamp']), seed, tier, sorted(focus or []))).encode()).hexdigest()[:20]
    cache = os.path.join(common.BUILD, 'codecrun-%s.pkl' % key)
    if os.path.exists(cache):
        try:
            return pickle.load(open(cache, 'rb'))
        except Exception:
            pass
    cases, rng = generate(meta, seed, tier, focus)
    mo = codec.run_model(mexe, [c['line'] for c in cases])
    rcases = read_cases(cases, mo, rng, tier)
    mo += codec.run_model(mexe, [c['line'] for c in rcases])
    cases += rcases
    # members emitted along the writer's path (model side only; used by the round-trip oracle)
    wc = [c for c in cases if c['kind'] == 'W']
    eo = codec.run_model(mexe, ['E' + c['line'][1:] for c in wc])
    for c, e in zip(wc, eo):
        c['emitted'] = [int(x) for x in e[5:].split(',') if x] if e.startswith('E ok') else None
    io = codec.run_impl(hexe, [c['line'] for c in cases])
    for c, m, i in zip(cases, mo, io):
        c['model'] = m
        c['impl'] = i
        c['agree'] = codec.lines_agree(m, i)
    res = {'cases': cases}
    for f in os.listdir(common.BUILD):
        if f.startswith('codecrun-') and f.endswith('.pkl'):
            try:
                if os.path.getmtime(os.path.join(common.BUILD, f)) < __import__('time').time() - 6 * 3600:
                    os.unlink(os.path.join(common.BUILD, f))
            except OSError:
                pass
    pickle.dump(res, open(cache, 'wb'))
    return res


def distribution(cases):
    d = collections.Counter()
    for c in cases:
        d['%s/%s' % (c['kind'], c['mode'])] += 1
    errs = collections.Counter()
    for c in cases:
        t = c['model'].split(' ')
        errs[t[0] + ' ' + (t[1] if len(t) > 1 else '') + ((' ' + t[2]) if len(t) > 2 and t[1] == 'err' else '')] += 1
    return dict(d), dict(errs)


def report_disagreements(v, res, tag):
    dis = [c for c in res['cases'] if not c['agree']]
    if dis:
        c = dis[0]
        v.violation('corr:%s:%s' % (tag, c['cls']),
                    'model and implementation disagree on %d codec case(s) (%s); first: class %s, case %s | model: %s | impl: %s' % (
                        len(dis), ', '.join(sorted(set(x['cls'] for x in dis))[:8]), c['cls'], c['line'][:100], c['model'][:160], c['impl'][:160]),
                    {'correspondence': 'codec harness', 'case': c['line'], 'model': c['model'], 'impl': c['impl']}, no_input=True)
    return len(dis)


def coverage_common(res):
    cases = res['cases']
    dist, errs = distribution(cases)
    distinct = len(set(c['line'] for c in cases if c['kind'] != 'F' and len(c['line'].split()) > 2))
    return {
        'evaluations': len(cases), 'distinct_nontrivial': distinct,
        'rule': 'per class: fresh object, default/API-populated/stale-length states (scalars from boundary sets incl. the signature, payload lengths 0..17, 255..257, 65535.., representable in the length member in API mode), their encodings read back exactly, with trailing bytes, truncated at a random offset, with byte / aligned 16- and 32-bit substitutions; and, for one encoding per class, every aligned 32-/16-bit position behind the base header overwritten with a length above any documented maximum (1536, 0xfff0, ...) with 8192 (thorough: 70000) filler bytes behind the object, so that a believed length really copies. Non-trivial = distinct case line that sets at least one member or carries bytes.',
        'input_distribution': dist, 'model_outcomes': errs,
        'samples': [c['line'][:200] for c in cases[1:4]] + [c['line'][:200] for c in cases if c['kind'] == 'R'][:2],
    }
