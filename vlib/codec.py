"""codec.py — case generation and differential execution for the codec correspondence (harness `codec`)."""
import os, random, re, subprocess, tempfile, json
from . import common

SIG = 0x4A424F4C
W = {'U8': 1, 'I8': 1, 'TBool': 1, 'U16': 2, 'I16': 2, 'U32': 4, 'I32': 4, 'U64': 8, 'I64': 8}


class ClassView:
    """Flattened view of one creatable class from meta.json."""

    def __init__(self, meta, name):
        self.name = name
        c = meta['classes'][name]
        self.idx = c['idx']
        self.isobj = c.get('isobj', False)
        self.fields = []        # (fid, kind list, name)
        self.derived = set()    # fids assigned by write pre-processing
        self.selectors = {}     # fid -> boundary values of the constants it is compared with in read/write/size code
        self.read_derived = set()   # fids assigned (not decoded) by read(): selectors such as apiMajor / _present
        self.derivs = []        # (len fid, cast type, container fid, multiplier)
        self.pads = False
        self._collect(meta, name, 0, '')
        self.fields.sort()

    def _collect(self, meta, name, shift, prefix):
        c = meta['classes'][name]
        for b in c['bases']:
            self._collect(meta, b, shift, prefix)
        for f in c['fields']:
            self.fields.append((f['id'] + shift, f['kind'], prefix + f['name'], f['init']))
        for d in c.get('assigned_in_write', []):
            self.derived.add(d + shift)
        for sf, vals in c.get('selectors', {}).items():
            self.selectors.setdefault(int(sf) + shift, [])
            self.selectors[int(sf) + shift] += [x for x in vals if x not in self.selectors[int(sf) + shift]]
        for d in c.get('assigned_in_read', []):
            self.read_derived.add(d + shift)
        for lf, t, cf, k in c.get('derivs', []):
            self.derivs.append((lf + shift, t, cf + shift, k))
        if c.get('pads'):
            self.pads = True
        for m in c['members']:
            self._collect(meta, m['cls'], shift + m['shift'], prefix + m['name'] + '.')


def scalar_values(rng, ity, small=False):
    w = W[ity]
    signed = ity.startswith('I')
    if ity == 'TBool':
        return rng.choice([0, 1])
    mx = (1 << (8 * w)) - 1
    r = rng.random()
    if small or r < 0.45:
        v = rng.choice([0, 0, 0, 1, 1, 2, 3, 4, 5, 6, 7, 8, 9, 12, 15, 16, 17, 31, 32, 33, 63, 64, 65, 100, 200])
    elif r < 0.6:
        v = rng.choice([mx, mx - 1, 1 << (8 * w - 1), (1 << (8 * w - 1)) - 1, 255, 256, 257, 65535, 65536, SIG & mx, 0x4C, 0x4F4C, 0x424F4C])
    elif r < 0.8:
        v = rng.randrange(0, 1024)
    else:
        v = rng.randrange(0, mx + 1)
    v &= mx
    if signed and v >= 1 << (8 * w - 1):
        v -= 1 << (8 * w)
    return v


def vec_len(rng):
    r = rng.random()
    if r < 0.5:
        return rng.choice([0, 0, 1, 2, 3, 4, 5, 6, 7, 8, 9, 10, 11, 12, 13, 15, 16, 17])
    if r < 0.8:
        return rng.randrange(0, 64)
    if r < 0.97:
        return rng.choice([255, 256, 257, 300, 511, 512, 1000])
    return rng.choice([65535, 65536, 65537, 70000])


def rand_bytes(rng, n):
    r = rng.random()
    if r < 0.1:
        return bytes(n)
    if r < 0.2:
        return (b'LOBJ' * (n // 4 + 1))[:n]
    return bytes(rng.getrandbits(8) for _ in range(n))


def gen_object(rng, cv, mode):
    """mode 'api': containers + non-derived scalars set, derived fields left alone;
       mode 'stale': additionally the derived (length/size) fields get stale values;
       mode 'default': nothing set."""
    sets = []
    if mode == 'default':
        return sets
    for fid, kind, name, init in cv.fields:
        if kind[0] == 'scalar':
            if fid in cv.derived and mode == 'api':
                continue
            if mode == 'api' and name in ('signature', 'headerVersion', 'objectType'):
                continue        # set by the constructor; the API user leaves them alone
            if rng.random() < 0.25 and fid not in cv.derived:
                continue
            if kind[2]:     # double: any bit pattern
                sets.append('%d=%d' % (fid, rng.getrandbits(64) if rng.random() < 0.5 else 0))
            else:
                sets.append('%d=%d' % (fid, scalar_values(rng, kind[1], small=(fid in cv.derived and rng.random() < 0.7))))
        elif kind[0] == 'vec':
            ne = vec_len(rng)
            if mode in ('api', 'stale'):
                # representable: the element count (times its multiplier) fits every length member derived from it
                # (a payload longer than its length member can express is not a state the format can carry: C01/C03 exclude it)
                for lf, t, cf, k in cv.derivs:
                    if cf == fid:
                        mx = ((1 << (8 * W[t])) - 1) // k
                        if ne > mx:
                            ne = mx if rng.random() < 0.5 else rng.randrange(0, mx + 1)
            n = ne * kind[1]
            sets.append('%d=x%s' % (fid, rand_bytes(rng, n).hex()))
        elif kind[0] == 'array':
            if rng.random() < 0.8:
                sets.append('%d=x%s' % (fid, rand_bytes(rng, kind[1] * kind[2]).hex()))
    return sets


def big_stack():
    import resource
    try:
        resource.setrlimit(resource.RLIMIT_STACK, (resource.RLIM_INFINITY, resource.RLIM_INFINITY))
    except (ValueError, OSError):
        pass


CAP = str(1 << 20)      # allocation cap used in the correspondence runs (model and harness alike)
os.environ.setdefault('VERIF_ALLOC_CAP', CAP)


def run_model(exe, lines, timeout=1200):
    with tempfile.NamedTemporaryFile('w', suffix='.cases', delete=False, dir=common.BUILD) as f:
        f.write('\n'.join(lines) + '\n')
        path = f.name
    try:
        p = subprocess.run([exe, path], stdout=subprocess.PIPE, stderr=subprocess.PIPE, timeout=timeout, preexec_fn=big_stack)
        out = p.stdout.decode().split('\n')
        if p.returncode != 0:
            raise common.BuildError('model driver failed: ' + p.stderr.decode()[-2000:], p.stderr.decode()[-2000:])
        return out[:len(lines)]
    finally:
        os.unlink(path)


def classify_crash(stderr):
    s = stderr
    if 'AddressSanitizer' in s:
        m = re.search(r'AddressSanitizer: ([\w-]+)', s)
        kind = m.group(1) if m else 'asan'
        rw = 'WRITE' if re.search(r'\bWRITE of size', s) else ('READ' if re.search(r'\bREAD of size', s) else '')
        if rw == 'WRITE':
            return 'CRASH oobwrite ' + kind
        if rw == 'READ':
            return 'CRASH oobread ' + kind
        if 'allocation-size-too-big' in s or 'out-of-memory' in s:
            return 'CRASH alloc ' + kind
        return 'CRASH asan ' + kind
    if 'runtime error' in s:
        m = re.search(r'runtime error: ([^\n]*)', s)
        return 'CRASH ub ' + (m.group(1)[:80] if m else '')
    if 'WATCHDOG' in s:
        return 'HANG ' + (re.search(r'WATCHDOG ([^\n]*)', s).group(1) if re.search(r'WATCHDOG ([^\n]*)', s) else '')
    if 'terminate called' in s:
        return 'CRASH terminate'
    return 'CRASH other'


def confirm_hang(exe, line, env):
    """None if the case hangs (or crashes) again under a generous watchdog, else its output line."""
    env2 = dict(env, VERIF_WD_SECONDS='30', VERIF_BLOCK_MS=env.get('VERIF_BLOCK_MS', '400'))
    with tempfile.NamedTemporaryFile('w', suffix='.cases', delete=False, dir=common.BUILD) as f:
        f.write(line + '\n')
        path = f.name
    try:
        p = subprocess.run([exe, path], stdout=subprocess.PIPE, stderr=subprocess.PIPE, timeout=240, env=env2)
        out = [l for l in p.stdout.decode('utf-8', 'replace').split('\n') if l != '']
        if p.returncode == 0 and len(out) >= 1:
            return out[0]
        return None
    except subprocess.TimeoutExpired:
        return None
    finally:
        os.unlink(path)


def run_impl(exe, lines, timeout_per_batch=600, per_case_timeout=20, max_failures=6):
    """Run the C++ harness; isolates crashing / hanging cases (one result per input line).  After max_failures
    crashes / hangs in one batch the remaining cases are not run ('SKIPPED'): each hang costs a watchdog period."""
    results = []
    start = 0
    failures = 0
    env = dict(os.environ)
    env['ASAN_OPTIONS'] = 'detect_leaks=0:allocator_may_return_null=1:max_allocation_size_mb=2048:detect_container_overflow=1'
    if os.environ.get('VERIF_FILL'):
        env['ASAN_OPTIONS'] += ':max_malloc_fill_size=1048576:malloc_fill_byte=%d' % int(os.environ['VERIF_FILL'])
    env['UBSAN_OPTIONS'] = 'print_stacktrace=0'
    while start < len(lines):
        with tempfile.NamedTemporaryFile('w', suffix='.cases', delete=False, dir=common.BUILD) as f:
            f.write('\n'.join(lines[start:]) + '\n')
            path = f.name
        try:
            try:
                p = subprocess.run([exe, path], stdout=subprocess.PIPE, stderr=subprocess.PIPE, timeout=timeout_per_batch, env=env)
                out = [l for l in p.stdout.decode('utf-8', 'replace').split('\n')]
                if out and out[-1] == '':
                    out.pop()
                rc = p.returncode
                err = p.stderr.decode('utf-8', 'replace')
            except subprocess.TimeoutExpired as ex:
                out = [l for l in (ex.stdout or b'').decode('utf-8', 'replace').split('\n')]
                if out and not (ex.stdout or b'').endswith(b'\n'):
                    out.pop()
                if out and out[-1] == '':
                    out.pop()
                rc = -999
                err = 'TIMEOUT'
        finally:
            os.unlink(path)
        n = len(lines) - start
        if rc == 0 and len(out) >= n:
            results += out[:n]
            break
        # the case after the last complete line crashed / hung
        k = min(len(out), n - 1)
        results += out[:k]
        verdict = 'HANG' if rc == -999 else classify_crash(err)
        if verdict.startswith('HANG') and not os.environ.get('VERIF_NO_CONFIRM'):
            # a watchdog expiry can be the machine's fault (memory pressure, many sanitizer builds at once): the same case
            # once more, alone, with a watchdog of 30 s; a hang is reported only if it hangs again
            again = confirm_hang(exe, lines[start + k], env)
            if again is not None:
                results.append(again)
                start += k + 1
                continue
        results.append(verdict)
        start += k + 1
        failures += 1
        if failures >= max_failures:
            results += ['SKIPPED'] * (len(lines) - start)
            break
    return results


def lines_agree(model, impl):
    """Model line vs implementation line. '?' in the model (indeterminate) matches anything."""
    if model == impl or impl == 'SKIPPED':
        return True
    mt, it = model.split(' '), impl.split(' ')
    # an error predicted by the model corresponds to a sanitizer crash of that kind
    if len(mt) >= 3 and mt[1] == 'err':
        if it[0] == 'CRASH' and len(it) > 1 and it[1] == mt[2]:
            return True
        if mt[2] == 'ub':
            return True     # indeterminate value read in the model: the code's behaviour is unconstrained
        if mt[2] in ('oobread', 'oobwrite') and len(it) > 1 and it[1] == 'ok':
            return True     # out-of-container access the sanitizers cannot see (inside capacity / SSO buffer)
        if mt[2] in ('oobread', 'oobwrite') and it[0] == 'CRASH' and len(it) > 1 and it[1] in ('ub', 'oobread', 'oobwrite', 'asan'):
            return True     # e.g. UBSan: copy through the null data() of an empty vector
        return False
    if len(mt) != len(it):
        return False
    for a, b in zip(mt, it):
        if a == b:
            continue
        if a.endswith('=err:ub'):       # the model refuses to read an indeterminate value; the code reads garbage
            continue
        if '=' in a and a.endswith('=?') and b.startswith(a[:-1]):
            continue
        if '?' in a and '=' in a and '=' in b and a.split('=')[0] == b.split('=')[0] and a.split('=')[1].startswith('x'):
            # byte string with undefined bytes
            av, bv = a.split('=')[1], b.split('=')[1]
            if len(av) == len(bv) and all(x == y or x == '?' for x, y in zip(av, bv)):
                continue
        # emitted bytes with undefined positions
        if '?' in a and len(a) == len(b) and all(x == y or x == '?' for x, y in zip(a, b)):
            continue
        return False
    return True


def parse_dump(line):
    """'X ok ... | fid=v fid=v' -> dict fid->str"""
    if ' |' not in line:
        return {}
    d = {}
    for tok in line.split(' |', 1)[1].split():
        k, v = tok.split('=', 1)
        d[int(k)] = v
    return d
