"""filerun.py — the file-layer correspondence run shared by C01 (file level) C04 C05 C08 C09 C10 C14:
real File sessions (harness `file`) against the extracted Lib/FileModel.v on the same cases, plus a
stdlib-only decoder of the container format (struct + zlib) used as the independent oracle."""
import collections, hashlib, os, pickle, random, struct, time, zlib
from . import common, codec

SIG_OBJ = b'LOBJ'
SIG_FILE = b'LOGG'


# ---------------------------------------------------------------- independent decoder (C04 / C05)
class FormatError(Exception):
    pass


def parse_blf(data, level=None, cs=None):
    """Decode a finished file with nothing but the format description.  Returns (stats dict, containers)
    where each container is a dict; raises FormatError with the first ill-formed thing."""
    if len(data) < 144:
        raise FormatError('file shorter than the 144-byte statistics header')
    (sig, ssize, api, appid, clevel, amaj, amin, fsize, usize, count, build) = struct.unpack_from('<4sIIBBBBQQII', data, 0)
    rpo, = struct.unpack_from('<Q', data, 72)
    if sig != SIG_FILE or ssize != 144:
        raise FormatError('bad file signature / statistics size')
    st = {'fileSize': fsize, 'uncompressedFileSize': usize, 'objectCount': count, 'restorePointsOffset': rpo,
          'apiNumber': api, 'applicationId': appid, 'compressionLevel': clevel, 'applicationMajor': amaj,
          'applicationMinor': amin, 'applicationBuild': build, 'raw': data[:144]}
    pos = 144
    conts = []
    while pos < len(data):
        if len(data) - pos < 32:
            raise FormatError('%d stray bytes after the last container' % (len(data) - pos))
        sig, hsz, hver, osz, otype = struct.unpack_from('<4sHHII', data, pos)
        method, r1, r2, usz, r3 = struct.unpack_from('<HHIII', data, pos + 16)
        if sig != SIG_OBJ:
            raise FormatError('no object signature at offset %d' % pos)
        if hsz != 16 or hver != 1 or otype != 10:
            raise FormatError('container at %d: headerSize %d, headerVersion %d, type %d' % (pos, hsz, hver, otype))
        if osz < 32 or pos + osz > len(data):
            raise FormatError('container at %d: objectSize %d does not fit' % (pos, osz))
        stored = data[pos + 32:pos + osz]
        if method == 0:
            payload = stored
        elif method == 2:
            try:
                d = zlib.decompressobj()
                payload = d.decompress(stored)
                if d.unused_data or not d.eof:
                    raise FormatError('container at %d: zlib stream incomplete or followed by garbage' % pos)
            except zlib.error as ex:
                raise FormatError('container at %d: zlib error %s' % (pos, ex))
            flevel = stored[1] >> 6
        else:
            raise FormatError('container at %d: compression method %d' % (pos, method))
        if len(payload) != usz:
            raise FormatError('container at %d: declares %d uncompressed bytes, holds %d' % (pos, usz, len(payload)))
        if r1 or r2 or r3:
            raise FormatError('container at %d: reserved members not zero' % pos)
        pad = osz % 4
        if data[pos + osz:pos + osz + pad] != bytes(pad) or pos + osz + pad > len(data):
            raise FormatError('container at %d: padding is not %d zero bytes' % (pos, pad))
        conts.append({'pos': pos, 'method': method, 'stored': len(stored), 'payload': payload,
                      'flevel': (stored[1] >> 6) if method == 2 else None})
        pos += osz + pad
    return st, conts


def flevel_class(level):
    """RFC 1950 FLEVEL as zlib sets it for compress2(level)."""
    if level in (0, 1):
        return 0
    if level < 6:
        return 1
    if level == 6:
        return 2
    return 3


def check_written_file(data, level, cs, restore, payload, nobj, hdr_sets):
    """C04 + C05 oracle on a finished file.  Returns list of (code, message)."""
    bad = []
    try:
        st, conts = parse_blf(data)
    except FormatError as ex:
        return [('format', str(ex))]
    for c in conts:
        if c['method'] != (0 if level == 0 else 2):
            bad.append(('method', 'container at %d uses method %d at compression level %d' % (c['pos'], c['method'], level)))
        if c['method'] == 2 and c['flevel'] != flevel_class(level):
            bad.append(('flevel', 'container at %d: zlib level class %d, expected %d for level %d' % (c['pos'], c['flevel'], flevel_class(level), level)))
        if len(c['payload']) > cs:
            bad.append(('size', 'container at %d holds %d bytes, configured container size %d' % (c['pos'], len(c['payload']), cs)))
    got = b''.join(c['payload'] for c in conts)
    if got != payload:
        k = next((i for i in range(min(len(got), len(payload))) if got[i] != payload[i]), min(len(got), len(payload)))
        bad.append(('payload', 'concatenated inflated payload differs from the objects\' encodings at byte %d (%d vs %d bytes)' % (k, len(got), len(payload))))
    # C05
    if st['fileSize'] != len(data):
        bad.append(('fileSize', 'header fileSize %d, size on disk %d' % (st['fileSize'], len(data))))
    want_u = 144 + sum(32 + len(c['payload']) for c in conts)
    if st['uncompressedFileSize'] != want_u:
        bad.append(('uncompressedFileSize', 'header uncompressedFileSize %d, recomputed %d' % (st['uncompressedFileSize'], want_u)))
    if st['objectCount'] != nobj:
        bad.append(('objectCount', 'header objectCount %d, %d objects written' % (st['objectCount'], nobj)))
    if restore:
        if not conts or st['restorePointsOffset'] != conts[-1]['pos'] or conts[-1]['payload']:
            bad.append(('restorePointsOffset', 'restorePointsOffset %d does not designate the trailing (empty) restore-point container' % st['restorePointsOffset']))
    for name, off, fmt in (('apiNumber', 8, '<I'), ('applicationId', 12, 'B'), ('compressionLevel', 13, 'B'), ('applicationMajor', 14, 'B'),
                           ('applicationMinor', 15, 'B'), ('applicationBuild', 36, '<I')):
        if name in hdr_sets and struct.unpack_from(fmt, data, off)[0] != hdr_sets[name]:
            bad.append(('verbatim', 'caller-supplied %s=%d is stored as %d' % (name, hdr_sets[name], struct.unpack_from(fmt, data, off)[0])))
    for name, off in (('measurementStartTime', 40), ('lastObjectTime', 56)):
        if name in hdr_sets and data[off:off + 16] != hdr_sets[name]:
            bad.append(('verbatim', 'caller-supplied %s is not stored verbatim' % name))
    return bad


# ---------------------------------------------------------------- case generation
SAFE_POOL = ['CanMessage', 'CanMessage', 'CanMessage', 'AppText', 'AppText', 'CanErrorFrame', 'LinMessage2', 'EthernetFrame',
             'FlexRayVFrReceiveMsg', 'EventComment', 'GlobalMarker', 'CanFdMessage', 'Most150Pkt', 'SystemVariable', 'EnvironmentVariable',
             'CanDriverStatistic', 'J1708Message', 'RealtimeClock', 'WlanFrame', 'AfdxFrame', 'A429Message', 'LinSpikeEvent2']

HDR_FIELDS = {'apiNumber': ('U32', 8), 'applicationId': ('U8', 12), 'compressionLevel': ('U8', 13), 'applicationMajor': ('U8', 14),
              'applicationMinor': ('U8', 15), 'applicationBuild': ('U32', 36)}


class Gen:
    def __init__(self, meta, rng):
        self.meta, self.rng = meta, rng
        self.views = {}
        self.sfid = {f['name']: f['id'] for f in meta['classes']['FileStatistics']['fields']}

    def view(self, name):
        if name not in self.views:
            self.views[name] = codec.ClassView(self.meta, name)
        return self.views[name]

    def obj(self, name=None, small=True):
        rng = self.rng
        name = name or rng.choice(SAFE_POOL)
        if name not in self.meta['classes']:
            name = 'CanMessage'
        cv = self.view(name)
        sets = codec.gen_object(rng, cv, 'api')
        if small:
            # keep payloads short so that files stay small
            out = []
            for s in sets:
                k, val = s.split('=', 1)
                if val.startswith('x') and len(val) > 1 + 2 * 40 and not any(int(k) == f for f, kd, _, _ in cv.fields if kd[0] == 'array'):
                    kind = [kd for f, kd, _, _ in cv.fields if f == int(k)][0]
                    n = (rng.randrange(0, 24) * kind[1])
                    val = 'x' + val[1:1 + 2 * n]
                out.append('%s=%s' % (k, val))
            sets = out
        if name == 'EnvironmentVariable':
            # the default constructor picks no type code (known finding C17): choose one of the class's codes
            ft = [f for f, kd, nm, _ in cv.fields if nm == 'objectType'][0]
            sets = [s for s in sets if int(s.split('=')[0]) != ft] + ['%d=%d' % (ft, rng.choice([6, 7, 8, 9]))]
        return '%d %s' % (cv.idx, ' '.join(sets))

    def header(self):
        rng = self.rng
        if rng.random() < 0.5:
            return '', {}
        sets, d = [], {}
        for nm, (ty, off) in HDR_FIELDS.items():
            if rng.random() < 0.6:
                v = codec.scalar_values(rng, ty)
                sets.append('%d=%d' % (self.sfid[nm], v))
                d[nm] = v
        for nm in ('measurementStartTime', 'lastObjectTime'):
            if rng.random() < 0.5:
                b = bytes(rng.getrandbits(8) for _ in range(16))
                sets.append('%d=x%s' % (self.sfid[nm], b.hex()))
                d[nm] = b
        return ('H ' + ' '.join(sets)) if sets else '', d


def gen_write_cases(meta, rng, tier):
    g = Gen(meta, rng)
    cases = []
    n = 60 if tier == 'quick' else 600
    sizes = [1, 2, 3, 5, 16, 17, 31, 32, 33, 47, 48, 49, 64, 100, 255, 256, 1000, 4096, 0x20000]
    for k in range(n):
        level = k % 10 if k < 20 else rng.randrange(0, 10)
        cs = rng.choice(sizes)
        restore = rng.choice([0, 1])
        r = rng.random()
        nobj = 0 if r < 0.08 else (1 if r < 0.2 else rng.randrange(2, 9 if cs > 3 else 4))
        if cs <= 3:
            objs = [g.obj('CanMessage') for _ in range(nobj)]
        else:
            objs = [g.obj() for _ in range(nobj)]
            if nobj and rng.random() < 0.2:
                # a caller copying a Vector log passes its restore-point objects (type 115) through as well
                objs.insert(rng.randrange(0, len(objs) + 1), g.obj('RestorePointContainer'))
        hs, hd = g.header()
        line = 'FW %d %d %d %s' % (level, cs, restore, hs)
        cases.append({'line': (line.rstrip() + ''.join(' | ' + o for o in objs)), 'level': level, 'cs': cs, 'restore': restore,
                      'hdr': hd, 'objs': objs, 'kind': 'FW'})
    # totals that are exact multiples of the container size (final empty container)
    for mult in (1, 2, 3):
        objs = [g.obj('CanMessage') for _ in range(mult)]
        cases.append({'line': 'FW %d 48 0' % rng.randrange(0, 10) + ''.join(' | ' + o for o in objs), 'level': 0, 'cs': 48, 'restore': 0, 'hdr': {}, 'objs': objs, 'kind': 'FW'})
        cases[-1]['level'] = int(cases[-1]['line'].split()[1])
    # an object several containers long, containers around the object header boundary
    for cs in (15, 16, 17, 40):
        big = g.obj('AppText')
        tf = [f for f, kd, nm, _ in g.view('AppText').fields if nm == 'text'][0]
        big = ' '.join(t for t in big.split() if not t.startswith('%d=' % tf)) + ' %d=x%s' % (tf, bytes(rng.randrange(32, 127) for _ in range(rng.randrange(100, 600))).hex())
        objs = [g.obj('CanMessage'), big, g.obj('CanMessage')]
        lv = rng.randrange(0, 10)
        cases.append({'line': 'FW %d %d 1' % (lv, cs) + ''.join(' | ' + o for o in objs), 'level': lv, 'cs': cs, 'restore': 1, 'hdr': {}, 'objs': objs, 'kind': 'FW'})
    # bulk: containers of 32 KiB and more holding bytes that do not compress (deflate falls back to stored
    # blocks, the output is longer than the input), at the levels that compress
    for lv, cs in ((1, 0x8000), (6, 0x10000), (9, 0x20000)) if tier == 'quick' else [(l, c) for l in (1, 3, 6, 9) for c in (0x8000, 0x10000, 0x20000)]:
        big = g.obj('AppText')
        tf = [f for f, kd, nm, _ in g.view('AppText').fields if nm == 'text'][0]
        big = ' '.join(t for t in big.split() if not t.startswith('%d=' % tf)) + ' %d=x%s' % (tf, bytes(rng.getrandbits(8) for _ in range(rng.randrange(36000, 42000))).hex())
        objs = [g.obj('CanMessage'), big, g.obj('CanMessage')]
        cases.append({'line': 'FW %d %d 0' % (lv, cs) + ''.join(' | ' + o for o in objs), 'level': lv, 'cs': cs, 'restore': 0, 'hdr': {}, 'objs': objs, 'kind': 'FW'})
    return cases


def mutate(rng, b, n):
    """hostile variants of a valid file (C10): substitutions, field overwrites, truncation, block edits."""
    out = []
    L = len(b)
    for _ in range(n):
        r = rng.random()
        bb = bytearray(b)
        if r < 0.3:
            k = rng.randrange(0, L)
            bb[k] = rng.choice([0, 1, 0x7f, 0x80, 0xff, rng.getrandbits(8)])
            out.append(('byte@%d' % k, bytes(bb)))
        elif r < 0.55:
            k = rng.randrange(0, max(1, L // 4)) * 4
            v = rng.choice([0, 1, 0x7fffffff, 0x80000000, 0xffffffff, 0xfffffff0, 16, 15, 17, 31, 32, 33, L, 0x10000])
            bb[k:k + 4] = struct.pack('<I', v)
            out.append(('u32@%d=%x' % (k, v), bytes(bb[:max(L, k + 4)])))
        elif r < 0.7:
            k = rng.randrange(0, max(1, L // 2)) * 2
            v = rng.choice([0, 1, 0x7fff, 0x8000, 0xffff, 2, 3, 16])
            bb[k:k + 2] = struct.pack('<H', v)
            out.append(('u16@%d=%x' % (k, v), bytes(bb[:max(L, k + 2)])))
        elif r < 0.8:
            k = rng.randrange(0, L)
            out.append(('trunc@%d' % k, bytes(bb[:k])))
        elif r < 0.9:
            a = rng.randrange(0, L)
            c = rng.randrange(1, 64)
            out.append(('dup@%d+%d' % (a, c), bytes(bb[:a + c] + bb[a:])))
        else:
            a = rng.randrange(0, L)
            c = rng.randrange(1, 64)
            out.append(('del@%d+%d' % (a, c), bytes(bb[:a] + bb[a + c:])))
    return out


def wrap_container(payload, method=0, level=6, usize=None, osize=None, otype=10):
    stored = payload if method == 0 else zlib.compress(payload, level)
    osz = 32 + len(stored) if osize is None else osize
    h = struct.pack('<4sHHII', SIG_OBJ, 16, 1, osz, otype) + struct.pack('<HHIII', method, 0, 0, len(payload) if usize is None else usize, 0)
    return h + stored + bytes((32 + len(stored)) % 4)


def file_of(containers):
    hdr = bytearray(144)
    struct.pack_into('<4sII', hdr, 0, SIG_FILE, 144, 4080200)
    body = b''.join(containers)
    struct.pack_into('<Q', hdr, 24, 144 + len(body))
    return bytes(hdr) + body


# ---------------------------------------------------------------- running
def canon_fr(line):
    """canonical view of an FR result: (status, n, count, usize, stats, objects)"""
    if line.startswith('FR ok'):
        head, _, rest = line.partition(' stats |')
        kv = dict(t.split('=') for t in head.split()[2:])
        parts = rest.split(' || ')
        return ('ok', int(kv['n']), int(kv['count']), int(kv['usize']), parts[0].strip(), [p.strip() for p in parts[1:]])
    return (line.split(' ')[0] + ' ' + (line.split(' ')[1] if ' ' in line else ''),)


def fr_agree(m, i):
    if i == 'SKIPPED':
        return True
    if m.startswith('FR ok') and 'oend=fuel' in m:
        return i.startswith('HANG') or 'TOOMANY' in i
    if m.startswith('FR ok') and ('=unsafe' in m):
        return i.startswith('CRASH')
    if m.startswith('FR ok') and i.startswith('FR ok'):
        cm, ci = canon_fr(m), canon_fr(i)
        if 'oend=clean' not in m:
            # the parser stage ended early (exception): read() returns nullptr at once and close() aborts the inflating
            # worker wherever it is — how many containers it has counted by then depends on timing, not on the file
            cm, ci = cm[:3] + cm[4:], ci[:3] + ci[4:]
        return cm == ci
    return m == i


def run_lines(lines, shards=None):
    mexe = common.build_model_driver()
    hexe = common.build_harness('file', extra_flags=['-D_GLIBCXX_SANITIZE_VECTOR'])
    os.environ['VERIF_TMPDIR'] = common.BUILD
    import concurrent.futures
    shards = shards or min(common.NPROC, max(1, len(lines) // 8))
    parts = [lines[k::shards] for k in range(shards)]
    with concurrent.futures.ThreadPoolExecutor(2 * shards) as ex:
        fm = [ex.submit(codec.run_model, mexe, p) if p else None for p in parts]
        fi = [ex.submit(codec.run_impl, hexe, p, 900) if p else None for p in parts]
        mo = [None] * len(lines)
        io = [None] * len(lines)
        for k in range(shards):
            if parts[k]:
                mo[k::shards] = fm[k].result()
                io[k::shards] = fi[k].result()
    return mo, io


def run(meta, seed, tier):
    """write sessions, their read-back, truncations and mutations, on model and implementation."""
    mexe = common.build_model_driver()
    hexe = common.build_harness('file', extra_flags=['-D_GLIBCXX_SANITIZE_VECTOR'])
    key = hashlib.sha256(('%s|%s|%s|%s|%s' % (common.src_hash(), common.file_hash([mexe, __file__, codec.__file__]),
                                                common.file_hash([hexe + '.stamp']), seed, tier)).encode()).hexdigest()[:20]
    cache = os.path.join(common.BUILD, 'filerun-%s.pkl' % key)
    if os.path.exists(cache):
        try:
            return pickle.load(open(cache, 'rb'))
        except Exception:
            pass
    rng = random.Random(seed)
    wcases = gen_write_cases(meta, rng, tier)
    mo, io = run_lines([c['line'] for c in wcases])
    # per-object encodings (model) to know the expected payload and which objects count
    enc_lines = []
    for c in wcases:
        for o in c['objs']:
            enc_lines.append('W ' + o)
    eo = codec.run_model(mexe, enc_lines) if enc_lines else []
    k = 0
    for c, m, i in zip(wcases, mo, io):
        c['model'], c['impl'] = m, i
        c['enc'] = eo[k:k + len(c['objs'])]
        k += len(c['objs'])
        c['file'] = bytes.fromhex(i.split(' ')[-1]) if i.startswith('FW ok') and len(i.split(' ')) > 5 else None
        c['mfile'] = bytes.fromhex(m.split(' ')[-1]) if m.startswith('FW ok') and len(m.split(' ')) > 2 else None
    # read-back, truncations, mutations
    rcases = []
    for c in wcases:
        f = c['mfile']
        if f is None:
            continue
        rcases.append({'kind': 'FR', 'mode': 'full', 'of': c, 'data': f})
        L = len(f)
        if tier == 'thorough' and L <= 700:
            offs = list(range(0, L))
        else:
            offs = sorted(set([0, 1, 3, 4, 143, 144, 145, 160, 175, 176, 177, L - 1, L - 2, L - 4, L - 33] +
                              [rng.randrange(0, L) for _ in range(6 if tier == 'quick' else 40)]))
        for k in offs:
            if 0 <= k < L:
                rcases.append({'kind': 'FR', 'mode': 'trunc', 'of': c, 'cut': k, 'data': f[:k]})
        for what, data in mutate(rng, f, 6 if tier == 'quick' else 40):
            rcases.append({'kind': 'FR', 'mode': 'mut', 'of': c, 'what': what, 'data': data})
    for r in rcases:
        r['line'] = 'FR ' + (r['data'].hex() or '-')
    rm, ri = run_lines([r['line'] for r in rcases])
    for r, m, i in zip(rcases, rm, ri):
        r['model'], r['impl'] = m, i
    res = {'w': wcases, 'r': rcases}
    for f in os.listdir(common.BUILD):
        if f.startswith('filerun-') and f.endswith('.pkl'):
            try:
                if os.path.getmtime(os.path.join(common.BUILD, f)) < time.time() - 6 * 3600:
                    os.unlink(os.path.join(common.BUILD, f))
            except OSError:
                pass
    pickle.dump(res, open(cache, 'wb'))
    return res


def report_disagreements(v, res, tag, kinds=('w', 'r')):
    dis = []
    if 'w' in kinds:
        for c in res['w']:
            if c['mfile'] != c['file'] or c['mfile'] is None:
                dis.append((c['line'], c['model'][:200], c['impl'][:200]))
    if 'r' in kinds:
        for r in res['r']:
            if not fr_agree(r['model'], r['impl']):
                dis.append((r['line'], r['model'][:300], r['impl'][:300]))
    if dis:
        l, m, i = min(dis, key=lambda x: len(x[0]))
        v.violation('corr:%s' % tag, 'file-layer model and implementation disagree on %d case(s); shortest: %s | model: %s | impl: %s' % (len(dis), l[:120], m[:200], i[:200]),
                    {'correspondence': 'file harness', 'case': l, 'model': m, 'impl': i}, no_input=True)
    return len(dis)


def coverage_common(res):
    d = collections.Counter()
    for c in res['w']:
        d['FW/level%d' % c['level']] += 1
    for r in res['r']:
        d['FR/' + r['mode']] += 1
    outcomes = collections.Counter()
    for r in res['r']:
        outcomes[r['impl'].split(' ')[0] + ' ' + (r['impl'].split(' ')[1] if ' ' in r['impl'] else '')] += 1
    return {
        'evaluations': len(res['w']) + len(res['r']),
        'distinct_nontrivial': len(set(c['line'] for c in res['w'] if c['objs'])) + len(set(r['line'] for r in res['r'] if len(r['data']) > 144)),
        'input_distribution': dict(d), 'implementation_outcomes': dict(outcomes),
        'container_sizes': sorted(set(c['cs'] for c in res['w'])),
        'samples': [c['line'][:200] for c in res['w'][:2]] + [r['line'][:120] + '...' for r in res['r'][:2]],
    }


# ---------------------------------------------------------------- hand-assembled streams (C08 C09 C10)
def unknown_object(rng, code, size, declared=None):
    """an object of a type the library does not know: base header + arbitrary body without the signature; its headerSize and
    headerVersion fields are whatever the unknown writer put there (mostly 16 / 1, sometimes larger than the object)"""
    body = bytes(rng.choice(b'\x00\x01ABJKMNPQxyz\xff') for _ in range(max(0, size - 16)))
    hsz = 16 if rng.random() < 0.6 else rng.choice([0, 16, 24, 32, 40, 48, 100, 0xffff])
    hver = 1 if rng.random() < 0.7 else rng.choice([0, 1, 2, 3])
    return struct.pack('<4sHHII', SIG_OBJ, hsz, hver, size if declared is None else declared, code) + body


def filler(rng, n, prefix=b''):
    alphabet = b'LOBxJ\x00\xff'
    while True:
        b = bytes(rng.choice(alphabet) for _ in range(n)) + prefix
        if SIG_OBJ not in b:
            return b


def chunk(rng, data, sizes):
    out = []
    pos = 0
    while pos < len(data):
        n = rng.choice(sizes)
        out.append(data[pos:pos + n])
        pos += n
    return out or [b'']


def assembled_run(meta, seed, tier):
    """streams assembled by hand: known objects (encodings taken from the model) with fillers and unknown-type
    objects in between, cut into method-0 / zlib containers of arbitrary sizes.  Cached like run()."""
    mexe = common.build_model_driver()
    hexe = common.build_harness('file', extra_flags=['-D_GLIBCXX_SANITIZE_VECTOR'])
    key = hashlib.sha256(('asm|%s|%s|%s|%s|%s' % (common.src_hash(), common.file_hash([mexe, __file__, codec.__file__]),
                                                    common.file_hash([hexe + '.stamp']), seed, tier)).encode()).hexdigest()[:20]
    cache = os.path.join(common.BUILD, 'filerun-%s.pkl' % key)
    if os.path.exists(cache):
        try:
            return pickle.load(open(cache, 'rb'))
        except Exception:
            pass
    rng = random.Random(seed * 7 + 1)
    g = Gen(meta, rng)
    pool = ['CanMessage', 'CanMessage', 'AppText', 'CanErrorFrame', 'LinMessage2', 'EthernetFrame', 'GlobalMarker', 'CanFdMessage']
    objs = [g.obj(rng.choice(pool)) for _ in range(40)]
    eo = codec.run_model(mexe, ['W ' + o for o in objs])
    encs = [(o, bytes.fromhex(e.split(' ')[2])) for o, e in zip(objs, eo) if e.startswith('W ok ')]
    known_codes = set(code for _, code, hdr in meta['format_table'] if hdr in meta['classes'])
    unknown_codes = [c for c in [0, 26, 27, 28, 52, 53, 108, 116, 117, 132, 133, 139, 200, 255, 256, 65535, 0x7777, 2 ** 31, 2 ** 32 - 1] if c not in known_codes]
    impl_known = set(int(k) for k, v in meta.get('factory', {}).items()) if isinstance(meta.get('factory'), dict) else set()
    cases = []
    n = 80 if tier == 'quick' else 1200
    for k in range(n):
        parts, expect = [], []
        kind = rng.choice(['filler', 'unknown', 'mixed'])
        for _ in range(rng.randrange(1, 6)):
            r = rng.random()
            if kind != 'unknown' and r < 0.5:
                parts.append(('filler', filler(rng, rng.choice([0, 1, 2, 3, 4, 5, 7, 8, 13, 40]), rng.choice([b'', b'', b'L', b'LO', b'LOB', b'LL', b'LOL', b'LOBL', b'LOLOB']))))
            if kind != 'filler' and rng.random() < 0.6:
                size = rng.choice([16, 17, 18, 19, 20, 23, 24, 31, 32, 33, 47, 64, 100])
                parts.append(('unknown', unknown_object(rng, rng.choice(unknown_codes), size)))
            o, e = rng.choice(encs)
            parts.append(('known', e))
            expect.append(e)
        if kind != 'unknown' and rng.random() < 0.5:
            parts.append(('filler', filler(rng, rng.choice([0, 1, 3, 4, 9]))))
        stream = b''.join(p for _, p in parts)
        method, level = rng.choice([(0, 0), (0, 0), (2, 1), (2, 9)])
        sizes = rng.choice([[1 << 20], [7, 16, 33], [1, 2, 3, 5], [48], [len(stream) // 2 + 1]])
        data = file_of([wrap_container(c, method, level or 6) for c in chunk(rng, stream, sizes)])
        cases.append({'mode': kind, 'data': data, 'expect': expect, 'layout': [(t, len(p)) for t, p in parts], 'stream': stream})
    # large unknown objects (64 KiB and more) whose payload is full of images of known objects: a reader that skips by
    # anything but the full declared 32-bit size lands inside the payload and delivers the images / loses the neighbours
    for size in ((65536, 65600, 100000) if tier == 'quick' else (65535, 65536, 65552, 65600, 70001, 100000, 131072, 200003)):
        o1, e1 = rng.choice(encs)
        o3, e3 = rng.choice(encs)
        img = rng.choice(encs)[1]
        body = (img * (size // len(img) + 1))[:size - 16]
        unk = struct.pack('<4sHHII', SIG_OBJ, 16, 1, size, rng.choice(unknown_codes)) + body
        parts = [('known', e1), ('unknown', unk), ('known', e3), ('known', e1)]
        stream = b''.join(p for _, p in parts)
        method, level = rng.choice([(0, 0), (2, 1)])
        data = file_of([wrap_container(c, method, level or 6) for c in chunk(rng, stream, rng.choice([[1 << 20], [0x20000], [4096]]))])
        cases.append({'mode': 'unknown-large', 'data': data, 'expect': [e1, e3, e1], 'layout': [(t, len(p)) for t, p in parts], 'stream': stream})
    # hostile object / container headers (C10): sizes 0, below / at / above what is there, huge
    for k in range(60 if tier == 'quick' else 600):
        o, e = rng.choice(encs)
        o2, e2 = rng.choice(encs)
        b = bytearray(e)
        what = rng.choice(['osz', 'hsz', 'len', 'type'])
        if what == 'osz':
            struct.pack_into('<I', b, 8, rng.choice([0, 1, 4, 15, 16, 17, len(e) - 1, len(e) + 1, len(e) + 4, 2 * len(e), 0x7fffffff, 0x80000000, 0xffffffff, 0xfffffff0]))
        elif what == 'hsz':
            struct.pack_into('<H', b, 4, rng.choice([0, 1, 15, 16, 17, 31, 32, 33, 0xffff]))
        elif what == 'type':
            struct.pack_into('<I', b, 12, rng.choice([1, 10, 65, 86, 115, 96, 71, 103, 5]))
        else:
            k2 = rng.randrange(16, max(17, len(b) - 3))
            struct.pack_into('<I', b, k2 - k2 % 4, rng.choice([0xffffffff, 0xfffffff0, 0x7fffffff, 0x80000000, 0x10000000, len(e), 0x100000]))
        stream = e2 + bytes(b) + e2
        mode = 'hostile-' + what
        if rng.random() < 0.3:
            # hostile container header instead
            cont = bytearray(wrap_container(stream, 0))
            f = rng.choice([8, 16, 28, 4, 12])
            struct.pack_into('<I' if f in (8, 28, 12) else '<H', cont, f, rng.choice([0, 1, 16, 31, 32, 33, len(stream), len(stream) + 33, 0xffffffff, 0x7fffffff, 0xfff0]) & (0xffffffff if f in (8, 28, 12) else 0xffff))
            data = file_of([bytes(cont), wrap_container(e2, 0)])
            mode = 'hostile-container@%d' % f
        else:
            data = file_of([wrap_container(c, rng.choice([0, 2])) for c in chunk(rng, stream, rng.choice([[1 << 20], [16, 33], [5]]))])
        cases.append({'mode': mode, 'data': data, 'expect': None, 'layout': None, 'stream': stream})
    # systematic: an object of EVERY class (one API-populated encoding each, older layout versions included where the generator
    # picked one) whose header declares less than the object holds (16 = one base header, 0, its header size), between two
    # ordinary objects — a reader that seeks back by `declared - computed size` must still make progress
    names = sorted(n for n, c in meta['classes'].items() if c.get('isobj') and c.get('concrete') and n != 'LogContainer')
    variant = [n for n in names if meta['classes'][n].get('selectors')]      # classes with several layout versions / variants
    if tier == 'quick':
        names = [n for k, n in enumerate(names) if (k + seed) % 2 == 0 and n not in variant]
    allobjs = [g.obj(n, small=True) for n in names]
    for n in variant:
        for fid, vals in meta['classes'][n]['selectors'].items():
            for val in vals:
                names.append(n)
                allobjs.append(g.obj(n, small=True) + ' %s=%d' % (fid, val))        # a later assignment overrides the generated one
    ao = codec.run_model(mexe, ['W ' + o for o in allobjs])
    e2 = encs[0][1]
    for n, o, e in zip(names, allobjs, ao):
        if not e.startswith('W ok '):
            continue
        eb = bytes.fromhex(e.split(' ')[2])
        for declared in (16, 0, struct.unpack_from('<H', eb, 4)[0]):
            b = bytearray(eb)
            struct.pack_into('<I', b, 8, declared)
            stream = e2 + bytes(b) + e2 + e2
            data = file_of([wrap_container(c, 0) for c in chunk(rng, stream, [1 << 20])])
            cases.append({'mode': 'hostile-declared%d:%s' % (declared, n), 'data': data, 'expect': None, 'layout': None, 'stream': stream})
    for c in cases:
        c['line'] = 'FR ' + c['data'].hex()
    mo, io = run_lines([c['line'] for c in cases])
    # what a known object decodes to on its own (object level)
    uniq = sorted(set(e for c in cases if c['expect'] for e in c['expect']))
    idx_of = {e: int(o.split()[0]) for o, e in encs}
    ro = codec.run_model(mexe, ['R %d %s' % (idx_of[e], e.hex()) for e in uniq])
    alone = {e: (idx_of[e], r.split(' |', 1)[1].strip() if ' |' in r else None) for e, r in zip(uniq, ro)}
    for c, m, i in zip(cases, mo, io):
        c['model'], c['impl'] = m, i
        if c['expect'] is not None:
            c['expect_dumps'] = ['%d |%s' % (alone[e][0], (' ' + alone[e][1]) if alone[e][1] else '') for e in c['expect']]
    res = {'a': cases}
    pickle.dump(res, open(cache, 'wb'))
    return res
