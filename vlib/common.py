"""common.py — build orchestration shared by all checks.

Every check run: translate /repo -> coq/Gen, make the Coq development, extract + build the OCaml
model driver, build the C++ harnesses against the *current* /repo/src (cached by content hash).
"""
import hashlib, json, os, shutil, subprocess, sys, time, glob

VERIF = os.path.dirname(os.path.dirname(os.path.abspath(__file__)))
REPO = os.environ.get('VERIF_REPO', '/repo')
BUILD = os.path.join(VERIF, 'build')
COQ = os.path.join(VERIF, 'coq')
SRC = os.path.join(REPO, 'src/Vector/BLF')
NPROC = os.cpu_count() or 4

CXXFLAGS = ['-std=c++11', '-O1', '-g', '-fno-omit-frame-pointer', '-w']
SAN = ['-fsanitize=address,undefined', '-fno-sanitize-recover=undefined']
INC = ['-I' + os.path.join(VERIF, 'harness/inc'), '-I' + os.path.join(REPO, 'src'), '-I' + os.path.join(VERIF, 'harness')]


class BuildError(Exception):
    def __init__(self, what, log):
        Exception.__init__(self, what)
        self.what, self.log = what, log


def run(cmd, cwd=None, timeout=3600, env=None, input=None):
    e = dict(os.environ)
    if env:
        e.update(env)
    p = subprocess.run(cmd, cwd=cwd, stdout=subprocess.PIPE, stderr=subprocess.STDOUT, timeout=timeout, env=e, input=input)
    return p.returncode, p.stdout.decode('utf-8', 'replace')


def src_hash():
    h = hashlib.sha256()
    for f in sorted(glob.glob(os.path.join(SRC, '*.cpp')) + glob.glob(os.path.join(SRC, '*.h')) + glob.glob(os.path.join(REPO, 'src/Vector/*.h'))):
        h.update(os.path.basename(f).encode())
        h.update(open(f, 'rb').read())
    for f in sorted(glob.glob(os.path.join(VERIF, 'harness/inc/Vector/BLF/*')) + glob.glob(os.path.join(VERIF, 'harness/sched/*'))):
        h.update(open(f, 'rb').read())
    return h.hexdigest()[:16]


def file_hash(paths):
    h = hashlib.sha256()
    for f in paths:
        h.update(f.encode())
        if os.path.exists(f):
            h.update(open(f, 'rb').read())
    return h.hexdigest()[:16]


# ---------------------------------------------------------------- translate
def translate():
    gen = os.path.join(COQ, 'Gen')
    hgen = os.path.join(BUILD, 'gen')
    os.makedirs(hgen, exist_ok=True)
    rc, out = run([sys.executable, os.path.join(VERIF, 'translator/blf2coq.py'), REPO, gen, hgen, os.path.join(hgen, 'meta.json')])
    if rc != 0:
        raise BuildError('translator failed', out)
    rc2, out2 = run([sys.executable, os.path.join(VERIF, 'translator/sync2coq.py'), REPO, gen, os.path.join(hgen, 'sync.json')]) \
        if os.path.exists(os.path.join(VERIF, 'translator/sync2coq.py')) else (0, '')
    if rc2 != 0:
        raise BuildError('sync translator failed', out2)
    rc3, out3 = run([sys.executable, os.path.join(VERIF, 'translator/images2coq.py'), REPO, gen, os.path.join(hgen, 'images.json')])
    if rc3 != 0:
        raise BuildError('image extraction failed', out3)
    return json.load(open(os.path.join(hgen, 'meta.json'))), out + out2


# ---------------------------------------------------------------- Coq
def coq_makefile():
    mk = os.path.join(COQ, 'Makefile')
    cp = os.path.join(COQ, '_CoqProject')
    if not os.path.exists(mk) or os.path.getmtime(mk) < os.path.getmtime(cp):
        rc, out = run(['coq_makefile', '-f', '_CoqProject', '-o', 'Makefile'], cwd=COQ)
        if rc != 0:
            raise BuildError('coq_makefile failed', out)


def coq_make(targets=None, keep_going=True, timeout=3000):
    """Build .vo targets (paths relative to coq/).  Returns (ok, log)."""
    coq_makefile()
    cmd = ['make', '-j%d' % NPROC]
    if keep_going:
        cmd.append('-k')
    if targets:
        cmd += targets
    rc, out = run(['timeout', str(timeout)] + cmd, cwd=COQ, timeout=timeout + 60)
    return rc == 0, out


# ---------------------------------------------------------------- extraction + OCaml driver
def build_model_driver():
    """Extract the model and build ocaml/driver.ml; cached on the .vo inputs."""
    odir = os.path.join(BUILD, 'ocaml')
    os.makedirs(odir, exist_ok=True)
    ok, log = coq_make(['Gen/Classes.vo', 'Gen/Consts.vo', 'Lib/Sem.vo', 'Inst/CodecDefs.vo'] + extra_extract_deps(), keep_going=False)
    if not ok:
        raise BuildError('Coq model does not compile', log)
    deps = [os.path.join(COQ, 'Extract.v'), os.path.join(VERIF, 'ocaml/driver.ml')] + \
        sorted(glob.glob(os.path.join(COQ, 'Gen/*.v'))) + sorted(glob.glob(os.path.join(COQ, 'Lib/*.v'))) + sorted(glob.glob(os.path.join(COQ, 'Inst/*Defs.v'))) + [os.path.join(COQ, 'Inst/Common.v')] + \
        [os.path.join(COQ, 'Lib', f) for f in ('Base.v', 'IR.v', 'Sem.v')] + sorted(glob.glob(os.path.join(VERIF, 'ocaml/*')))
    key = file_hash(deps)
    stamp = os.path.join(odir, 'stamp')
    exe = os.path.join(odir, 'model_driver')
    if os.path.exists(stamp) and open(stamp).read() == key and os.path.exists(exe):
        return exe
    rc, out = run(['timeout', '600', 'coqc', '-Q', COQ, 'VB', os.path.join(COQ, 'Extract.v')], cwd=odir)
    if rc != 0:
        raise BuildError('extraction failed', out)
    for f in glob.glob(os.path.join(VERIF, 'ocaml/*')):
        shutil.copy(f, odir)
    mls = ['model.mli', 'model.ml']
    extra_c = [f for f in os.listdir(odir) if f.endswith('_stub.c')]
    cmd = ['ocamlfind', 'ocamlopt', '-w', '-a', '-O2', '-package', 'unix'] + mls + extra_c + ['driver.ml', '-o', 'model_driver', '-linkpkg']
    if extra_c:
        cmd += ['-cclib', '-lz']
    rc, out = run(cmd, cwd=odir)
    if rc != 0:
        raise BuildError('OCaml build failed', out)
    open(stamp, 'w').write(key)
    return exe


def extra_extract_deps():
    out = []
    for line in open(os.path.join(COQ, 'Extract.v')):
        pass
    for f in sorted(glob.glob(os.path.join(COQ, 'Lib/*Model.v'))):
        out.append('Lib/' + os.path.basename(f)[:-2] + '.vo')
    for f in sorted(glob.glob(os.path.join(COQ, 'Inst/*Defs.v'))):
        out.append('Inst/' + os.path.basename(f)[:-2] + '.vo')
    return out


# ---------------------------------------------------------------- C++ library + harnesses
def cpp_dir():
    d = os.path.join(BUILD, 'cpp-' + src_hash())
    return d


def prune_cpp_dirs(keep):
    ds = sorted(glob.glob(os.path.join(BUILD, 'cpp-*')), key=os.path.getmtime)
    for d in ds[:-3]:
        if d != keep:
            shutil.rmtree(d, ignore_errors=True)


def build_lib(variant='asan'):
    """Compile every library source of the current tree into a static archive."""
    d = cpp_dir()
    os.makedirs(d, exist_ok=True)
    lib = os.path.join(d, 'libblf_%s.a' % variant)
    if os.path.exists(lib):
        os.utime(d)
        return lib
    flags = list(CXXFLAGS)
    if variant == 'asan':
        flags += SAN
    elif variant == 'tsan':
        flags += ['-fsanitize=thread']
    elif variant == 'sched':
        flags += SAN + ['-DVERIF_SCHED_SHIM', '-include', os.path.join(VERIF, 'harness/sched/shim.h')]
    elif variant == 'plain':
        pass
    od = os.path.join(d, 'obj_' + variant)
    os.makedirs(od, exist_ok=True)
    srcs = sorted(glob.glob(os.path.join(SRC, '*.cpp')))
    procs = []
    logs = []
    import concurrent.futures

    def cc(s):
        o = os.path.join(od, os.path.basename(s)[:-4] + '.o')
        return run(['g++'] + flags + INC + ['-c', s, '-o', o])
    with concurrent.futures.ThreadPoolExecutor(NPROC) as ex:
        for rc, out in ex.map(cc, srcs):
            if rc != 0:
                raise BuildError('library does not compile', out)
    rc, out = run(['ar', 'rcs', lib] + sorted(glob.glob(os.path.join(od, '*.o'))))
    if rc != 0:
        raise BuildError('ar failed', out)
    shutil.rmtree(od, ignore_errors=True)
    prune_cpp_dirs(d)
    return lib


def build_harness(name, variant='asan', extra_src=(), extra_flags=()):
    """Build harness/<name>.cpp against the library of the current tree."""
    d = cpp_dir()
    lib = build_lib(variant)
    srcs = [os.path.join(VERIF, 'harness', name + '.cpp')] + [os.path.join(VERIF, 'harness', s) for s in extra_src]
    deps = srcs + sorted(glob.glob(os.path.join(VERIF, 'harness/*.h'))) + sorted(glob.glob(os.path.join(BUILD, 'gen/*.inc'))) + \
        sorted(glob.glob(os.path.join(VERIF, 'harness/sched/*')))
    key = file_hash(deps) + variant + ' '.join(extra_flags)
    exe = os.path.join(d, '%s_%s' % (name.replace('/', '_'), variant))
    stamp = exe + '.stamp'
    if os.path.exists(exe) and os.path.exists(stamp) and open(stamp).read() == key:
        return exe
    flags = list(CXXFLAGS)
    if variant in ('asan', 'sched'):
        flags += SAN
    if variant == 'tsan':
        flags += ['-fsanitize=thread']
    if variant == 'sched':
        flags += ['-DVERIF_SCHED_SHIM', '-include', os.path.join(VERIF, 'harness/sched/shim.h')]
    flags = [f for f in flags if f != '-O1'] + ['-O0']
    rc, out = run(['g++'] + flags + list(extra_flags) + INC + ['-I' + BUILD] + srcs + [lib, '-lz', '-lpthread', '-o', exe])
    if rc != 0:
        raise BuildError('harness %s does not compile' % name, out)
    open(stamp, 'w').write(key)
    return exe


# ---------------------------------------------------------------- evidence / verdicts
def load_known():
    p = os.path.join(VERIF, 'known_findings.json')
    if not os.path.exists(p):
        return {'known': [], 'fixed': []}
    return json.load(open(p))


class Verdict:
    """Collects violations / known findings for one property run and writes the evidence."""

    def __init__(self, pid, tier, seed):
        self.pid, self.tier, self.seed = pid, tier, seed
        self.t0 = time.time()
        self.violations = []       # (key, description, replay dict)
        self.known_hit = []
        self.coverage = {}
        self.assumptions = []
        self.known = [k for k in load_known().get('known', []) if k['property'] == pid]

    def violation(self, key, desc, replay, no_input=False):
        """key: stable identifier of what fails (matched against known_findings.json)."""
        for k in self.known:
            if k['key'] == key:
                if k not in self.known_hit:
                    self.known_hit.append(k)
                return
        for v in self.violations:
            if v[0] == key:
                return
        self.violations.append((key, desc, replay, no_input))

    def finish(self, level='proof'):
        os.makedirs(os.path.join(VERIF, 'evidence'), exist_ok=True)
        os.makedirs(os.path.join(BUILD, 'replay'), exist_ok=True)
        for k in self.known_hit:
            print('KNOWN-FINDING: property=%s %s' % (self.pid, k['what']))
        # a broken obligation / correspondence is reported without an input only when no failing input was found
        if any(not v[3] for v in self.violations):
            self.violations = [v for v in self.violations if not v[3]]
        for i, (key, desc, replay, no_input) in enumerate(self.violations):
            rp = os.path.join(BUILD, 'replay', '%s_%d.json' % (self.pid, i))
            with open(rp, 'w') as f:
                json.dump({'property': self.pid, 'key': key, 'description': desc, 'replay': replay}, f, indent=1)
            print('VIOLATION property=%s replay=%s %s%s' % (self.pid, rp, desc.replace('\n', ' ')[:300],
                                                              ' no-failing-input-found' if no_input else ''))
        ev = {
            'property_id': self.pid, 'tier': self.tier, 'seed': self.seed, 'level': level,
            'coverage': self.coverage, 'assumptions': self.assumptions,
            'wall_s': round(time.time() - self.t0, 2), 'violations': len(self.violations),
        }
        ev['coverage']['known_findings_reproduced'] = [k['key'] for k in self.known_hit]
        with open(os.path.join(VERIF, 'evidence', self.pid + '.json'), 'w') as f:
            json.dump(ev, f, indent=1)
        return 1 if self.violations else 0
