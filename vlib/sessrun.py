"""sessrun.py — native session scenarios for the pipeline properties (C06 C07 C11 C12 C13 C14): real File sessions
under ASan/UBSan and a watchdog, on the plain build and on the build whose monitors yield / sleep at every
lock, unlock and wait (variant `sched`, seeded).  Supporting evidence for the pipeline models, never a proof."""
import os, random, struct
from . import common, codec, filerun


def harnesses():
    plain = common.build_harness('file', extra_flags=['-D_GLIBCXX_SANITIZE_VECTOR'])
    sched = common.build_harness('file', variant='sched')
    return plain, sched


def run_impl(exe, lines, seed=0, extra_env=None):
    os.environ['VERIF_TMPDIR'] = common.BUILD
    env = {'VERIF_SCHED_SEED': str(seed), 'VERIF_ALLOC_CAP': str(1 << 28)}
    if extra_env:
        env.update(extra_env)
    old = {k: os.environ.get(k) for k in env}
    os.environ.update(env)
    try:
        return codec.run_impl(exe, lines, 900)
    finally:
        for k, v in old.items():
            if v is None:
                os.environ.pop(k, None)
            else:
                os.environ[k] = v


def big_read_file(mexe, nobj, cs, rng, text=0):
    """a file of nobj objects in method-0 containers of cs bytes, assembled independently of the library's writer"""
    if text:
        lines = ['W 11 %d=x%s' % (2820, (bytes([97 + i % 26]) * text).hex()) for i in range(min(nobj, 8))]
    else:
        lines = ['W 24 6144=%d 6147=%d' % (i % 7, i) for i in range(min(nobj, 50))]
    eo = codec.run_model(mexe, lines)
    encs = [bytes.fromhex(e.split(' ')[2]) for e in eo if e.startswith('W ok ')]
    stream = b''.join(encs[i % len(encs)] for i in range(nobj))
    conts = [filerun.wrap_container(stream[i:i + cs], 0) for i in range(0, len(stream), cs)]
    return filerun.file_of(conts), len(stream)


def flags_reference(n_in_file, reads, mode, opened=True):
    """is_open good eof after: open, the reads, [close], [close] — reference state machine from File.h"""
    out = ['110']
    got = min(reads, n_in_file) if reads >= 0 else n_in_file
    sawnull = reads < 0 or reads > n_in_file
    rd = '01' if sawnull else '10'
    out.append('1' + rd)
    if mode in (0, 2):
        out.append('0' + rd)
    if mode == 2:
        out.append('0' + rd)
    return got, sawnull, out


def early_close_cases(mexe, rng, tier):
    cases = []
    files = []
    for nobj, cs in ((9000, 4096), (6000, 0x20000), (30, 64)) if tier == 'quick' else ((9000, 4096), (6000, 0x20000), (30, 64), (20000, 1000), (8000, 0x8000)):
        data, _ = big_read_file(mexe, nobj, cs, rng)
        files.append((nobj, cs, data))
    for nobj, cs, data in files:
        for reads in ([0, 3, 11, -1] if tier == 'quick' else [0, 1, 3, 9, 10, 11, 12, 100, nobj - 1, nobj, nobj + 2, -1]):
            for mode in (0, 1, 2):
                if tier == 'quick' and reads in (3,) and mode == 2:
                    continue
                sleep_ms = 120 if reads >= 0 and reads < nobj else 0
                cases.append({'line': 'FE %d %d %d %s' % (reads, sleep_ms, mode, data.hex()), 'nobj': nobj, 'cs': cs, 'reads': reads, 'mode': mode})
    return cases


def check_early(c, out):
    """returns None or (code, message)"""
    if out.startswith('HANG'):
        return ('hang', 'close()/destruction after %s read() calls on a file of %d objects (containers of %d bytes) does not return: %s' % (
            c['reads'] if c['reads'] >= 0 else 'all', c['nobj'], c['cs'], out[:60]))
    if out.startswith('CRASH'):
        return ('crash', 'session crashed: %s' % out[:100])
    if not out.startswith('FE ok'):
        return ('other', out[:100])
    kv = dict(t.split('=') for t in out.split()[2:] if '=' in t and not t.startswith('flags'))
    flags = out.split('flags=')[1].split(' leaked')[0].split()
    got, sawnull, want = flags_reference(c['nobj'], c['reads'], c['mode'])
    if int(kv['n']) != got:
        return ('count', '%s objects delivered, expected %d' % (kv['n'], got))
    if int(kv['leaked']) != 0:
        return ('leak', '%s allocations made during the session were never released (mode %d, %d reads)' % (kv['leaked'], c['mode'], c['reads']))
    if flags != want:
        return ('flags', 'is_open/good/eof after open, reads, close(s): %s, documented %s' % (flags, want))
    return None
